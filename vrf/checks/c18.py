"""C18 — point-cloud filters and camera helpers match their brute-force definitions.

Every call of knn / nbr_filter / voxel_filter / knn_filter / random_filter / point2pixel /
pixel2point / reprojerr / cart2homo / homo2cart made by the workload is compared with an O(n^2)
numpy definition (vrf/oracles/geom_ref.py) evaluated on the same (dtype-rounded) input, and is
repeated on a random permutation of the cloud (equivariance: outputs compared after un-permuting
where the output is row-aligned with the input, as multisets where it is a subset).
"""
import hashlib

import numpy as np
import torch
import pypose as pp

from ..oracles import geom_ref as G
from ..oracles import lie_ref as L

PID = "C18"
LEVEL = "exploration"
SHARDS = {"quick": 4, "thorough": 16}
TIMEOUT = {"quick": 900, "thorough": 5400}
RULE = ("Clouds of 1..300 points in 1..6 coordinate dimensions plus 0..3 feature channels, float64 and float32, "
        "kinds: uniform, clustered with 1..4 far outliers whose ARRAY POSITION is first / middle / last / random, "
        "integer lattice (ties everywhere: only tie-robust claims), duplicated rows, single point, single voxel; "
        "magnitudes 1e-2..1e2 with offsets up to 10x the extent. k sweeps {0,1,2,mid,N-2,N-1} (knn: 1..N2), "
        "norms 1/2/inf, radii placed mid-way in the largest nearby gap of the sorted pairwise distances (decision "
        "margin >= 1e3 u d, otherwise the case is re-drawn), voxel sizes from 'every point alone' to 'one voxel' with "
        "quotients (p-min)/size kept >= 0.01 away from integers >= 1. Every case is repeated on a random permutation. "
        "Pinhole: K = [[fx,0,cx],[0,fy,cy],[0,0,1]], fx,fy in +-[0.1,1e3] independently signed, camera-frame depth "
        "|z| in [0.2,20] of both signs with |x|,|y| <= 3|z|, extrinsics uniform over SO(3) x |t| <= 1e2, batches. "
        "One case = one call (function, cloud, parameters); distinct = distinct (input bytes, parameters); "
        "trivial = empty output by construction (num=0) or k=0 identity averaging.")
ASSUME = ["numpy float64 / longdouble O(n^2) definitions in vrf/oracles/geom_ref.py (no pypose import)",
          "index claims: always 'the returned index attains the returned distance, indices distinct'; equality with "
          "the oracle's index only on rows whose relevant consecutive distance gaps exceed 1e3*u*distance",
          "voxel grid origin = per-axis minimum of the cloud, positive voxel sizes (read from voxel_filter; the "
          "statement does not fix an origin); voxel sizes are rounded to float32 by the library (relative 6e-8, "
          "far below the 0.01 decision margin)",
          "distance / mean / pixel tolerances 64*u*scale with scale = the distance itself, the largest averaged "
          "magnitude (times sqrt(m) for a voxel centroid accumulated over m points), and (|f|(|p_w|+|t|)(1+|p_c|/|z|)/|z| + |c|) respectively",
          "random_filter / voxel_filter(random=True) draw from torch's global generator (seeded per worker)",
          "CPU only"]

INF = float("inf")
ORDS = (1, 2, INF)
DT = {"f64": torch.float64, "f32": torch.float32}
NPDT = {"f64": np.float64, "f32": np.float32}
C_TOL = 64.0
GAP = 1e3


def rr(ck, mon, reg, err, tol, entry, mech, wit=None):
    """ck.ratios + evaluation count of the sub-monitor (under a coarse regime: function/dtype)."""
    err = np.asarray(err, dtype=np.float64)
    tol = np.broadcast_to(np.asarray(tol, dtype=np.float64), err.shape).reshape(-1)
    ck.count(mon, "/".join(reg.split("/")[:2]), n=int(err.size), nontrivial=False)
    return ck.ratios(mon, reg, err.reshape(-1), tol, entry, mech, wit)


def u_of(dn):
    return float(torch.finfo(DT[dn]).eps)


def rnd(a, dn):
    """Round to the dtype under test and return as float64 (what the oracle sees)."""
    return np.asarray(a, dtype=np.float64).astype(NPDT[dn]).astype(np.float64)


def tt(a, dn):
    return torch.as_tensor(np.ascontiguousarray(a), dtype=torch.float64).to(DT[dn])


def npf(t):
    return t.detach().double().numpy()


def dig(*arrs):
    h = hashlib.blake2b(digest_size=8)
    for a in arrs:
        h.update(np.ascontiguousarray(np.asarray(a, dtype=np.float64)).tobytes())
    return h.hexdigest()


def ordname(o):
    return "inf" if o == INF else str(o)


# ------------------------------------------------------------------------------- generators
def outlier_positions(rng, n, m, where):
    m = min(m, n)
    if where == "first":
        return np.arange(m)
    if where == "last":
        return np.arange(n - m, n)
    if where == "middle":
        lo = max(1, n // 2 - m // 2)
        return np.arange(lo, min(n - 1, lo + m)) if n >= 3 else np.arange(0)
    return np.sort(rng.choice(n, size=m, replace=False))


def cloud(rng, n, D, kind, dn, where="random", nout=2):
    """(n, D) float64 array holding dtype-representable values + list of outlier rows."""
    scale = 10.0 ** rng.integers(-2, 3)
    off = rng.uniform(-10, 10, D) * scale * rng.choice([0.0, 1.0])
    out_idx = np.arange(0)
    if kind == "uniform":
        x = rng.uniform(-1, 1, (n, D))
    elif kind == "gauss":
        x = rng.standard_normal((n, D))
    elif kind == "lattice":
        x = rng.integers(-2, 3, (n, D)).astype(np.float64)
    elif kind == "dup":
        x = rng.uniform(-1, 1, (n, D))
        if n >= 2:
            src = rng.integers(0, n, max(1, n // 4))
            dst = rng.integers(0, n, max(1, n // 4))
            x[dst] = x[src]
    elif kind == "outliers":
        x = rng.uniform(-1, 1, (n, D)) * 0.5
        out_idx = outlier_positions(rng, n, nout, where)
        if len(out_idx):
            d = rng.standard_normal((len(out_idx), D))
            d /= np.maximum(np.linalg.norm(d, axis=-1, keepdims=True), 1e-300)
            # far from the cluster and from each other
            x[out_idx] = d * (20.0 + 15.0 * np.arange(len(out_idx)))[:, None]
    else:
        raise KeyError(kind)
    return rnd(x * scale + off, dn), out_idx


def with_channels(rng, pts, extra, dn):
    if extra == 0:
        return pts
    ch = rng.uniform(-5, 5, (pts.shape[0], extra)) * 10.0 ** rng.integers(-1, 2)
    return np.concatenate([pts, rnd(ch, dn)], -1)


def pick_radius(rng, Dm, u, mode):
    """A radius whose <= decisions are unambiguous: mid-way inside a gap of the sorted distinct
    off-diagonal distances (or below the smallest / above the largest).  Returns None when no
    gap is wide enough."""
    n = Dm.shape[0]
    if n < 2:
        return float(rng.uniform(0.1, 2.0))
    d = np.unique(Dm[~np.eye(n, dtype=bool)])
    if mode == "below":
        r = d[0] * 0.5
        return float(r) if d[0] > 0 else None
    if mode == "above":
        return float(d[-1] * 1.5 + 1e-3)
    if len(d) < 2:
        return None
    # candidate gaps around a random quantile; take the widest of a few neighbours
    j0 = int(rng.integers(0, len(d) - 1))
    js = np.arange(max(0, j0 - 4), min(len(d) - 1, j0 + 5))
    g = d[js + 1] - d[js]
    j = js[int(g.argmax())]
    r = 0.5 * (d[j] + d[j + 1])
    if min(r - d[j], d[j + 1] - r) <= GAP * u * d[j + 1]:
        return None
    return float(r)


def sep_radius(Dm, out_idx):
    """Radius between the diameter of the inlier cluster and the distance from any outlier to
    its nearest other point (None if the two do not separate)."""
    n = Dm.shape[0]
    inl = np.setdiff1d(np.arange(n), out_idx)
    if len(out_idx) == 0 or len(inl) < 2:
        return None
    dmax = Dm[np.ix_(inl, inl)].max()
    sub = Dm[out_idx].copy()
    sub[np.arange(len(out_idx)), out_idx] = np.inf
    dmin = sub.min()
    if not (np.isfinite(dmin) and dmin > 1.01 * dmax and dmax > 0):
        return None
    return float(0.5 * (dmax + dmin))


def kfclass(k, n):
    """Class of k for knn_filter on n points (k neighbours out of the n-1 other points)."""
    if k == 0:
        return "k=0"
    if k == n - 1:
        return "k=all-others"
    if k == 1:
        return "k=1"
    return "1<k<N-1"


def removed_regime(mask):
    """Where in the array the removed rows sit (input class, not code path)."""
    n = len(mask)
    rem = np.nonzero(~mask)[0]
    tags = []
    if len(rem) == 0:
        return ["removed:none"]
    if len(rem) == n:
        return ["removed:all"]
    if rem[0] == 0:
        tags.append("removed:first")
    if rem[-1] == n - 1:
        tags.append("removed:last")
    if np.any((rem > 0) & (rem < n - 1)):
        tags.append("removed:middle")
    # a removed row followed by a kept row: the filtered array is not a prefix of the input
    if rem[0] < np.nonzero(mask)[0][-1]:
        tags.append("removed:before-a-kept-row")
    return tags


def multiset_equal(a, b):
    """Bitwise multiset equality of the rows of two 2-D float arrays."""
    a = np.ascontiguousarray(np.asarray(a, dtype=np.float64))
    b = np.ascontiguousarray(np.asarray(b, dtype=np.float64))
    if a.shape != b.shape:
        return False
    return sorted(r.tobytes() for r in a) == sorted(r.tobytes() for r in b)


# ------------------------------------------------------------------------------- knn
def knn_one(ck, dn, ref, nbr, k, o, srt, vals_t, idx_t, reg, wit):
    """One batch item: ref (N1,D), nbr (N2,D) float64; vals_t/idx_t numpy outputs (N1,k)."""
    u = u_of(dn)
    Dm = G.pairwise(ref, nbr, o)
    vals, order, gaps = G.knn_rows(Dm)
    entry = "knn"
    n1, n2 = Dm.shape
    ok = ck.check(vals_t.shape == (n1, k) and idx_t.shape == (n1, k), "knn", reg, entry, "output_shape",
                  lambda: dict(wit, got=list(vals_t.shape)))
    if not ok:
        return None
    inr = bool(np.all((idx_t >= 0) & (idx_t < n2)))
    ck.check(inr, "knn", reg, entry, "index_out_of_range", wit)
    if not inr:
        return None
    got_sorted = vals_t if srt else np.sort(vals_t, axis=1)
    exp = vals[:, :k]
    tol = C_TOL * u * np.maximum(exp, 0) + np.finfo(NPDT[dn]).tiny
    rr(ck, "knn.values", reg, np.abs(got_sorted - exp), tol, entry, "not_the_k_smallest_distances",
              lambda i: dict(wit, row=int(i // k), col=int(i % k), expected=exp.reshape(-1)[i].item(),
                             got=got_sorted.reshape(-1)[i].item()))
    # the indices attain the returned distances, and are distinct
    att = np.take_along_axis(Dm, idx_t, 1)
    rr(ck, "knn.index_attains", reg, np.abs(att - vals_t), C_TOL * u * np.maximum(att, 0) + np.finfo(NPDT[dn]).tiny,
              entry, "index_does_not_attain_value", lambda i: dict(wit, row=int(i // k), col=int(i % k)))
    distinct = all(len(set(r.tolist())) == k for r in idx_t)
    ck.check(distinct, "knn.index_attains", reg, entry, "repeated_index_in_row", wit)
    # exact index equality on rows without ties among the first k+1 distances
    need = gaps[:, :k] if k < n2 else gaps[:, :max(k - 1, 0)]
    thr = GAP * u * vals[:, 1:need.shape[1] + 1]
    if srt:
        clear = np.all(need > thr, axis=1) if need.shape[1] else np.ones(n1, dtype=bool)
    else:
        clear = (gaps[:, k - 1] > GAP * u * vals[:, k]) if k < n2 else np.ones(n1, dtype=bool)
    if clear.any():
        if srt:
            same = np.all(idx_t[clear] == order[clear, :k], axis=1)
        else:
            same = np.all(np.sort(idx_t[clear], 1) == np.sort(order[clear, :k], 1), axis=1)
        ck.check(bool(same.all()), "knn.index_exact", reg, entry, "wrong_neighbour_index",
                 lambda: dict(wit, first_bad_row=int(np.nonzero(clear)[0][np.nonzero(~same)[0][0]])))
        ck.count("knn.index_exact", "/".join(reg.split("/")[:2]) + "/untied-rows", n=int(clear.sum()), nontrivial=False)
    ck.note_add("knn_rows_with_ties_index_equality_skipped", int((~clear).sum()))
    return clear, order


def run_knn(ck, rng, dn, thorough):
    u = u_of(dn)
    kinds = ("uniform", "gauss", "lattice", "dup", "outliers")
    reps = 64 if thorough else 4
    case = 0
    for rep in range(reps):
        for kind in kinds:
            for o in ORDS:
                case += 1
                if not ck.mine(case):
                    continue
                D = int(rng.integers(1, 7))
                n1 = int(rng.choice([1, 2, 3, 7, 40, int(rng.integers(1, 301)), 257, 300]))
                n2 = int(rng.choice([1, 2, 5, 33, int(rng.integers(1, 301)), 257, 300]))
                bshape = [(), (), (2,), (2, 3)][int(rng.integers(0, 4))]
                if n1 * n2 > 8000:
                    bshape = ()
                nb = int(np.prod(bshape)) if bshape else 1
                refs = np.stack([cloud(rng, n1, D, kind, dn)[0] for _ in range(nb)])
                nbrs = np.stack([cloud(rng, n2, D, kind if kind != "outliers" else "uniform", dn)[0] for _ in range(nb)])
                if kind == "dup":      # reference points that coincide with neighbours (distance 0)
                    m = min(n1, n2)
                    refs[:, :m // 2 + 1] = nbrs[:, :m // 2 + 1]
                ks = sorted(set([1, min(2, n2), (n2 + 1) // 2, max(1, n2 - 1), n2]))
                for k in ks:
                    for srt in (True, False):
                        reg = f"knn/{dn}/ord{ordname(o)}/{kind}/k:{kclass(k, n2)}/sorted={srt}"
                        wit = {"dtype": dn, "ord": ordname(o), "k": k, "N1": n1, "N2": n2, "D": D, "kind": kind,
                               "batch": list(bshape), "sorted": srt,
                               "ref": refs if refs.size <= 60 else dig(refs), "nbr": nbrs if nbrs.size <= 60 else dig(nbrs)}
                        tr = tt(refs.reshape(bshape + (n1, D)), dn)
                        tn = tt(nbrs.reshape(bshape + (n2, D)), dn)
                        okc, out = ck.call("knn", reg, "knn", lambda: pp.knn(tr, tn, k=k, ord=o, sorted=srt), witness=wit)
                        if not okc:
                            continue
                        ck.count("knn", reg, key=(dig(refs, nbrs), k, srt, ordname(o)))
                        ck.mark(f"knn/ord{ordname(o)}")
                        ck.mark("knn/" + kclass(k, n2))
                        ck.mark(f"knn/D{D}")
                        ck.mark(f"knn/batch-rank{len(bshape)}")
                        V = npf(out.values).reshape(nb, n1, k)
                        I = out.indices.numpy().reshape(nb, n1, k)
                        res = [knn_one(ck, dn, refs[b], nbrs[b], k, o, srt, V[b], I[b], reg, wit) for b in range(nb)]
                        # permutation equivariance: permute reference rows and neighbour rows
                        pr, pn = rng.permutation(n1), rng.permutation(n2)
                        okc, out2 = ck.call("knn.perm", reg, "knn",
                                            lambda: pp.knn(tt(refs[:, pr].reshape(bshape + (n1, D)), dn),
                                                           tt(nbrs[:, pn].reshape(bshape + (n2, D)), dn), k=k, ord=o, sorted=srt),
                                            witness=wit)
                        if not okc:
                            continue
                        ck.count("knn.perm", reg, key=(dig(refs, nbrs), k, srt, "perm"), nontrivial=n1 * n2 > 1)
                        V2 = npf(out2.values).reshape(nb, n1, k)
                        I2 = out2.indices.numpy().reshape(nb, n1, k)
                        for b in range(nb):
                            a, c = (V2[b], V[b][pr]) if srt else (np.sort(V2[b], 1), np.sort(V[b][pr], 1))
                            rr(ck, "knn.perm", reg, np.abs(a - c), C_TOL * u * np.abs(c) + np.finfo(NPDT[dn]).tiny, "knn",
                                      "values_not_permutation_equivariant", lambda i: dict(wit, perm_ref=pr, perm_nbr=pn))
                            if res[b] is None or not np.all((I2[b] >= 0) & (I2[b] < n2)):
                                continue
                            clear = res[b][0][pr]
                            back = pn[I2[b]]            # indices into the un-permuted neighbour array
                            want = I[b][pr]
                            if clear.any():
                                if srt:
                                    same = np.all(back[clear] == want[clear])
                                else:
                                    same = np.all(np.sort(back[clear], 1) == np.sort(want[clear], 1))
                                ck.check(bool(same), "knn.perm", reg, "knn", "indices_not_permutation_equivariant",
                                         lambda: dict(wit, perm_ref=pr, perm_nbr=pn))
                if len(ck.samples) < 2 and n1 * n2 <= 12:
                    ck.sample({"fn": "knn", "ref_hex": [[float(v).hex() for v in r] for r in refs[0]],
                               "nbr_hex": [[float(v).hex() for v in r] for r in nbrs[0]], "ord": ordname(o), "k": ks[0]})


def kclass(k, n):
    if k == 0:
        return "k=0"
    if k == n:
        return "k=N"
    if k == n - 1:
        return "k=N-1"
    if k == 1:
        return "k=1"
    return "1<k<N-1"


# ------------------------------------------------------------------------------- nbr_filter
def run_nbr(ck, rng, dn, thorough):
    u = u_of(dn)
    reps = 64 if thorough else 4
    case = 0
    plan = [("outliers", w) for w in ("first", "middle", "last", "random")] + [("uniform", "-"), ("gauss", "-"),
                                                                                 ("lattice", "-"), ("dup", "-")]
    for rep in range(reps):
        for kind, where in plan:
            for o in ORDS:
                case += 1
                if not ck.mine(case):
                    continue
                pdim = int(rng.integers(1, 7))
                extra = int(rng.choice([0, 0, 1, 3]))
                n = int(rng.choice([1, 2, 3, 6, 25, int(rng.integers(4, 301)), 257, 300]))      # up to the 300 points of the property, both tiers
                if kind == "outliers":
                    n = max(n, 6)
                pts, out_idx = cloud(rng, n, pdim, kind, dn, where, nout=int(rng.integers(1, 5)))
                full = with_channels(rng, pts, extra, dn)
                Dm = G.pairwise(pts, pts, o)
                for mode in (("mid", "mid", "below", "above") if kind != "outliers" else ("sep", "mid")):
                    if mode == "sep":
                        r = sep_radius(Dm, out_idx)
                    else:
                        r = pick_radius(rng, Dm, u, mode)
                    if r is None or not np.isfinite(r):
                        ck.note_add("nbr_filter_cases_redrawn_no_unambiguous_radius")
                        continue
                    r = float(np.float64(r).astype(NPDT[dn]))      # representable: the library compares in dtype
                    cnt, margin = G.radius_counts(Dm, r)
                    if n > 1 and not margin > GAP * u * r:
                        ck.note_add("nbr_filter_cases_redrawn_no_unambiguous_radius")
                        continue
                    if kind == "outliers" and mode == "sep":
                        nbs = [1, max(1, min(2, n - len(out_idx) - 1))]
                    else:
                        nbs = sorted(set([0, 1, int(np.median(cnt)), int(cnt.max()), int(cnt.max()) + 1,
                                          int(rng.integers(0, n + 1))]))
                    for nb in nbs:
                        exp_mask = cnt >= nb
                        tags = removed_regime(exp_mask)
                        reg = f"nbr_filter/{dn}/ord{ordname(o)}/{kind}/{'+'.join(tags)}"
                        wit = {"dtype": dn, "ord": ordname(o), "nbr": nb, "radius": r, "radius_hex": float(r).hex(),
                               "pdim": pdim, "D": pdim + extra, "N": n, "kind": kind, "outliers_at": out_idx,
                               "points": full if full.size <= 80 else dig(full), "expected_mask": exp_mask if n <= 40 else None}
                        tp = tt(full, dn)
                        pd = None if (extra == 0 and rng.random() < 0.5) else pdim
                        okc, out = ck.call("nbr_filter", reg, "nbr_filter",
                                           lambda: pp.nbr_filter(tp, nb, r, pdim=pd, ord=o, return_mask=True), witness=wit)
                        if not okc:
                            continue
                        ck.count("nbr_filter", reg, key=(dig(full), nb, r, ordname(o)))
                        for t in tags:
                            ck.mark("nbr_filter/" + t)
                        ck.mark(f"nbr_filter/pdim{pdim}+{min(extra, 1)}extra")
                        if n == 1:
                            ck.mark("nbr_filter/single-point")
                        good = isinstance(out, tuple) and len(out) == 2
                        ck.check(good, "nbr_filter", reg, "nbr_filter", "return_mask_not_a_pair", wit)
                        if not good:
                            continue
                        kept, mask = npf(out[0]), out[1].numpy().astype(bool)
                        ck.check(mask.shape == (n,) and bool(np.all(mask == exp_mask)), "nbr_filter", reg, "nbr_filter",
                                 "kept_set_differs_from_at_least_n_others_within_radius",
                                 lambda: dict(wit, got_mask=mask, counts=cnt))
                        ck.check(multiset_equal(kept, full[exp_mask]), "nbr_filter", reg, "nbr_filter",
                                 "returned_points_are_not_the_kept_rows", lambda: dict(wit, got=kept if kept.size < 80 else dig(kept)))
                        okc, out1 = ck.call("nbr_filter", reg, "nbr_filter", lambda: pp.nbr_filter(tp, nb, r, pdim=pd, ord=o), witness=wit)
                        if okc:
                            ck.check(torch.is_tensor(out1) and multiset_equal(npf(out1), full[exp_mask]), "nbr_filter", reg,
                                     "nbr_filter", "returned_points_are_not_the_kept_rows", wit)
                        # permutation
                        p = rng.permutation(n)
                        okc, out2 = ck.call("nbr_filter.perm", reg, "nbr_filter",
                                            lambda: pp.nbr_filter(tt(full[p], dn), nb, r, pdim=pd, ord=o, return_mask=True), witness=wit)
                        if okc:
                            ck.count("nbr_filter.perm", reg, key=(dig(full), nb, r, "perm"), nontrivial=n > 1)
                            m2 = out2[1].numpy().astype(bool)
                            ck.check(bool(np.all(m2 == mask[p])) and multiset_equal(npf(out2[0]), kept), "nbr_filter.perm", reg,
                                     "nbr_filter", "not_permutation_equivariant", lambda: dict(wit, perm=p))
                if len(ck.samples) < 4 and n <= 6:
                    ck.sample({"fn": "nbr_filter", "points_hex": [[float(v).hex() for v in r_] for r_ in full], "ord": ordname(o)})


# ------------------------------------------------------------------------------- knn_filter
def knn_filter_expect(full, pdim, k, o, u, radius=None):
    """Brute force: per row the mean of itself and its k nearest neighbours (all channels);
    `clear` marks rows for which that set is unambiguous; `mask` the retained rows."""
    n = full.shape[0]
    Dm = G.pairwise(full[:, :pdim], full[:, :pdim], o)
    # the row's own entry is exactly 0 and must sort first among exact zeros
    key = Dm.copy()
    key[np.arange(n), np.arange(n)] = -1.0
    order = np.argsort(key, axis=1, kind="stable")
    vals = np.take_along_axis(Dm, order, 1)
    sel = order[:, :k + 1]
    mean = np.asarray(L.ld(full)[sel].mean(1), dtype=np.float64)
    mag = np.abs(full)[sel].max((1, 2)) if full.shape[1] else np.zeros(n)
    if k + 1 < n:
        clear = (vals[:, k + 1] - vals[:, k]) > GAP * u * vals[:, k + 1]
        # a duplicate of the row itself with k = 0 (or any exact tie) is covered by the gap test
    else:
        clear = np.ones(n, dtype=bool)
    if radius is None:
        return mean, clear, np.ones(n, dtype=bool), mag, None, Dm
    cnt, margin = G.radius_counts(Dm, radius)
    return mean, clear, cnt >= k, mag, margin, Dm


def run_knn_filter(ck, rng, dn, thorough):
    u = u_of(dn)
    reps = 64 if thorough else 4
    case = 0
    plan = [("outliers", w) for w in ("first", "middle", "last", "random")] + [("uniform", "-"), ("gauss", "-"),
                                                                                 ("lattice", "-"), ("dup", "-")]
    for rep in range(reps):
        for kind, where in plan:
            for o in ORDS:
                case += 1
                if not ck.mine(case):
                    continue
                pdim = int(rng.integers(1, 7))
                extra = int(rng.choice([0, 0, 1, 3]))
                n = int(rng.choice([1, 2, 3, 6, 25, int(rng.integers(4, 301)), 257, 300]))      # up to the 300 points of the property, both tiers
                if kind == "outliers":
                    n = max(n, 6)
                pts, out_idx = cloud(rng, n, pdim, kind, dn, where, nout=int(rng.integers(1, 4)))
                full = with_channels(rng, pts, extra, dn)
                pd = None if (extra == 0 and rng.random() < 0.5) else pdim
                ks = sorted(set([0, min(1, n - 1), min(2, n - 1), (n - 1) // 2, max(0, n - 2), n - 1]))
                # ---- (a) no radius: all points retained, row-aligned, batched
                bshape = [(), (2,), (2, 2)][int(rng.integers(0, 3))] if n <= 60 else ()
                nb = int(np.prod(bshape)) if bshape else 1
                batch = np.stack([full] + [with_channels(rng, cloud(rng, n, pdim, kind if kind != "outliers" else "uniform", dn)[0], extra, dn)
                                           for _ in range(nb - 1)])
                for k in ks:
                    reg = f"knn_filter/{dn}/ord{ordname(o)}/{kind}/k:{kfclass(k, n)}/noradius"
                    wit = {"dtype": dn, "ord": ordname(o), "k": k, "pdim": pdim, "D": pdim + extra, "N": n, "kind": kind,
                           "batch": list(bshape), "points": batch if batch.size <= 80 else dig(batch)}
                    tb = tt(batch.reshape(bshape + (n, pdim + extra)), dn)
                    okc, out = ck.call("knn_filter", reg, "knn_filter", lambda: pp.knn_filter(tb, k, pdim=pd, ord=o), witness=wit)
                    if not okc:
                        continue
                    ck.count("knn_filter", reg, key=(dig(batch), k, ordname(o)), nontrivial=k > 0)
                    ck.mark("knn_filter/" + kfclass(k, n))
                    ck.mark(f"knn_filter/pdim{pdim}+{min(extra, 1)}extra")
                    ck.mark(f"knn_filter/batch-rank{len(bshape)}")
                    if n == 1:
                        ck.mark("knn_filter/single-point")
                    ok = ck.check(tuple(out.shape) == bshape + (n, pdim + extra), "knn_filter", reg, "knn_filter", "output_shape",
                                  lambda: dict(wit, got=list(out.shape)))
                    if not ok:
                        continue
                    O = npf(out).reshape(nb, n, pdim + extra)
                    p = rng.permutation(n)
                    okc, out2 = ck.call("knn_filter.perm", reg, "knn_filter",
                                        lambda: pp.knn_filter(tt(batch[:, p].reshape(bshape + (n, pdim + extra)), dn), k, pdim=pd, ord=o), witness=wit)
                    O2 = npf(out2).reshape(nb, n, pdim + extra) if okc and tuple(out2.shape) == tuple(out.shape) else None
                    for b in range(nb):
                        mean, clear, _, mag, _, _ = knn_filter_expect(batch[b], pdim, k, o, u)
                        ck.note_add("knn_filter_rows_with_tied_kth_neighbour_skipped", int((~clear).sum()))
                        if clear.any():
                            err = np.abs(O[b][clear] - mean[clear]).max(1) if pdim + extra else np.zeros(int(clear.sum()))
                            rr(ck, "knn_filter.mean", reg, err, C_TOL * u * mag[clear] + np.finfo(NPDT[dn]).tiny, "knn_filter",
                                      "not_mean_of_self_and_k_nearest", lambda i: dict(wit, row=int(np.nonzero(clear)[0][i]), item=b))
                            if O2 is not None:
                                c2 = clear[p]
                                err2 = np.abs(O2[b][c2] - O[b][p][c2]).max(1)
                                rr(ck, "knn_filter.perm", reg, err2, C_TOL * u * mag[p][c2] + np.finfo(NPDT[dn]).tiny, "knn_filter",
                                          "not_permutation_equivariant", lambda i: dict(wit, perm=p, item=b))
                    if O2 is not None:
                        ck.count("knn_filter.perm", reg, key=(dig(batch), k, "perm"), nontrivial=n > 1 and k > 0)
                # ---- (b) with radius (unbatched): retained = at least k others within the radius
                Dm = G.pairwise(pts, pts, o)
                for mode in (("sep", "mid") if kind == "outliers" else ("mid", "below", "above")):
                    if mode == "sep":
                        r = sep_radius(Dm, out_idx)
                    else:
                        r = pick_radius(rng, Dm, u, mode)
                    if r is None or not np.isfinite(r):
                        ck.note_add("knn_filter_cases_redrawn_no_unambiguous_radius")
                        continue
                    r = float(np.float64(r).astype(NPDT[dn]))
                    for k in ks:
                        mean, clear, mask, mag, margin, _ = knn_filter_expect(full, pdim, k, o, u, radius=r)
                        if n > 1 and not margin > GAP * u * r:
                            ck.note_add("knn_filter_cases_redrawn_no_unambiguous_radius")
                            break
                        tags = removed_regime(mask)
                        reg = f"knn_filter/{dn}/ord{ordname(o)}/k:{kfclass(k, n)}/radius/{'+'.join(tags)}"
                        wit = {"dtype": dn, "ord": ordname(o), "k": k, "radius": r, "radius_hex": float(r).hex(), "pdim": pdim,
                               "D": pdim + extra, "N": n, "kind": kind, "outliers_at": out_idx, "retained": np.nonzero(mask)[0] if n <= 60 else int(mask.sum()),
                               "points": full if full.size <= 80 else dig(full)}
                        tp = tt(full, dn)
                        okc, out = ck.call("knn_filter.radius", reg, "knn_filter", lambda: pp.knn_filter(tp, k, pdim=pd, radius=r, ord=o), witness=wit)
                        if not okc:
                            continue
                        ck.count("knn_filter.radius", reg, key=(dig(full), k, r, ordname(o)))
                        for t in tags:
                            ck.mark("knn_filter/" + t)
                        if n == 1:
                            ck.mark("knn_filter/single-point")
                        ok = ck.check(tuple(out.shape) == (int(mask.sum()), pdim + extra), "knn_filter.radius", reg, "knn_filter",
                                      "number_of_retained_points", lambda: dict(wit, got=list(out.shape), expected=int(mask.sum())))
                        if not ok:
                            continue
                        O = npf(out)
                        want = mask & clear
                        ck.note_add("knn_filter_rows_with_tied_kth_neighbour_skipped", int((mask & ~clear).sum()))
                        if want.any():
                            _, err = G.match_rows(mean[want], O)
                            rr(ck, "knn_filter.radius", reg, err, C_TOL * u * mag[want] + np.finfo(NPDT[dn]).tiny, "knn_filter",
                                      "not_mean_of_self_and_k_nearest", lambda i: dict(wit, row=int(np.nonzero(want)[0][i]),
                                                                                       expected=mean[want][i], got=O if O.size < 80 else None))
                        p = rng.permutation(n)
                        okc, out2 = ck.call("knn_filter.perm", reg, "knn_filter",
                                            lambda: pp.knn_filter(tt(full[p], dn), k, pdim=pd, radius=r, ord=o), witness=wit)
                        if okc:
                            ck.count("knn_filter.perm", reg, key=(dig(full), k, r, "perm"), nontrivial=n > 1)
                            O2 = npf(out2)
                            ok = ck.check(O2.shape == O.shape, "knn_filter.perm", reg, "knn_filter", "not_permutation_equivariant",
                                          lambda: dict(wit, perm=p, got=list(O2.shape)))
                            if ok and want.any():
                                _, err = G.match_rows(mean[want], O2)
                                rr(ck, "knn_filter.perm", reg, err, C_TOL * u * mag[want] + np.finfo(NPDT[dn]).tiny, "knn_filter",
                                          "not_permutation_equivariant", lambda i: dict(wit, perm=p))
                if len(ck.samples) < 6 and n <= 6:
                    ck.sample({"fn": "knn_filter", "points_hex": [[float(v).hex() for v in r_] for r_ in full], "ord": ordname(o)})


# ------------------------------------------------------------------------------- voxel_filter
def voxel_cloud(rng, n, vdim, dn, mode):
    """Cloud + voxel sizes with unambiguous floor decisions (margin 0.01 from integers >= 1)."""
    for attempt in range(20):
        scale = 10.0 ** rng.integers(-2, 3)
        off = rng.uniform(-10, 10, vdim) * scale * rng.choice([0.0, 1.0])
        x = rnd(rng.uniform(0, 1, (n, vdim)) * scale + off, dn)
        ext = np.maximum(x.max(0) - x.min(0), scale * 1e-3)
        if mode == "single-voxel":
            v = ext * rng.uniform(1.1, 5.0, vdim)
        elif mode == "fine":
            v = ext / rng.uniform(20, 200, vdim)
        elif mode == "grid-snapped":
            # points at the centres of the cells of a grid with a float32-representable size
            v = np.full(vdim, float(np.float32(2.0 ** rng.integers(-3, 3))))
            x = rnd((rng.integers(0, 6, (n, vdim)) + 0.5) * v, dn)
            x[0] = 0.0               # the minimum corner is a cell corner, every other point a cell centre
        else:
            v = ext / rng.uniform(0.8, 8.0, vdim)
        v = np.asarray(v, dtype=np.float64)
        v = v.astype(np.float32).astype(np.float64) if rng.random() < 0.5 else v
        # nudge ambiguous coordinates by a quarter cell (never lowers the minimum)
        for _ in range(4):
            k, margin, q = G.voxel_keys(x, v)
            near = np.rint(q)
            bad = (np.abs(q - near) < 0.02) & (near >= 1)
            if not bad.any():
                break
            x = rnd(x + bad * 0.25 * v, dn)
        k, margin, q = G.voxel_keys(x, v)
        if margin >= 0.01 and q.max() <= 1000:
            return x, [float(s) for s in v], k
    return None


def run_voxel_tiny(ck, rng):
    """Voxels far smaller than the spacing of the points (extent / voxel beyond 2^31 cells per axis): every point is alone in its
    voxel, so the filter returns the cloud itself (as a set), centroid and random-member modes alike.  float64 clouds."""
    for case in range(6):
        n, D = int(rng.choice([1, 5, 60, 300])), int(rng.integers(1, 4))
        x = rng.uniform(0, 1, (n, D)) * 10.0 + rng.uniform(-5, 5, D)
        v = [float(rng.choice([1e-9, 2.0 ** -30]))] * D
        for rand_ in (False, True):
            reg = f"voxel_filter/f64/tiny-voxel/random={rand_}"
            wit = {"N": n, "D": D, "voxel": v, "random": rand_, "points": x if x.size <= 60 else dig(x)}
            okc, out = ck.call("voxel_filter", reg, "voxel_filter", lambda: pp.voxel_filter(tt(x, "f64"), v, random=rand_), witness=wit)
            ck.count("voxel_filter", reg, key=(case, rand_, dig(x)))
            if not okc:
                continue
            got = npf(out)
            ck.check(got.shape == x.shape and multiset_equal(np.round(got, 12), np.round(x, 12)), "voxel_filter", reg, "voxel_filter",
                     "points_alone_in_their_voxels_are_not_returned_as_they_are", lambda: dict(wit, returned=int(got.shape[0]), occupied_voxels=n))
            ck.mark("voxel_filter/tiny-voxel")


def run_voxel(ck, rng, dn, thorough):
    u = u_of(dn)
    reps = 160 if thorough else 8
    case = 0
    for rep in range(reps):
        for mode in ("single-point", "single-voxel", "coarse", "fine", "grid-snapped"):
            for vdim in (1, 2, 3, 4, 6):
                case += 1
                if not ck.mine(case):
                    continue
                extra = int(rng.choice([0, 0, 1, 3]))
                if vdim + extra > 6 + 3:
                    extra = 0
                n = 1 if mode == "single-point" else int(rng.choice([2, 3, 7, 30, int(rng.integers(2, 301)), 257, 300]))
                got = voxel_cloud(rng, n, vdim, dn, "coarse" if mode == "single-point" else mode)
                if got is None:
                    ck.note_add("voxel_cases_redrawn_ambiguous_floor")
                    continue
                x, v, keys = got
                full = with_channels(rng, x, extra, dn)
                grp = G.groups(keys)
                M = len(grp)
                cent = np.stack([np.asarray(L.ld(full)[ix].mean(0), dtype=np.float64) for ix in grp.values()])
                # a sum of m terms accumulated in the dtype: random-walk growth sqrt(m) of the rounding error
                mag = np.stack([(np.abs(full[ix]).max() if full.shape[1] else 0.0) * np.sqrt(len(ix)) for ix in grp.values()])
                vclass = "single-point" if n == 1 else "single-voxel" if M == 1 else "every-point-alone" if M == n else "multi"
                reg = f"voxel_filter/{dn}/{mode}/vdim{vdim}/{vclass}"
                wit = {"dtype": dn, "voxel": v, "vdim": vdim, "D": vdim + extra, "N": n, "occupied": M,
                       "points": full if full.size <= 80 else dig(full)}
                tp = tt(full, dn)
                for trial in range(2):
                    perm = None if trial == 0 else rng.permutation(n)
                    tq = tp if perm is None else tt(full[perm], dn)
                    mon = "voxel_filter" if perm is None else "voxel_filter.perm"
                    w = wit if perm is None else dict(wit, perm=perm)
                    # ---- centroid
                    okc, out = ck.call(mon, reg, "voxel_filter", lambda: pp.voxel_filter(tq, v), witness=w)
                    if okc:
                        ck.count(mon, reg + "/centroid", key=(dig(full), tuple(v), trial), nontrivial=perm is None or n > 1)
                        ck.mark("voxel_filter/" + vclass)
                        O = npf(out)
                        ok = ck.check(O.shape == (M, vdim + extra), mon, reg, "voxel_filter", "not_one_row_per_occupied_voxel",
                                      lambda: dict(w, got=list(out.shape)))
                        if ok:
                            _, err = G.match_rows(cent, O)
                            rr(ck, mon + ".centroid", reg, err, C_TOL * u * mag + np.finfo(NPDT[dn]).tiny, "voxel_filter",
                                      "not_the_centroid_of_the_voxel", lambda i: dict(w, expected=cent[i], got=O if O.size < 80 else None))
                    # ---- random member
                    okc, out = ck.call(mon, reg, "voxel_filter(random=True)", lambda: pp.voxel_filter(tq, v, random=True), witness=w)
                    if okc:
                        ck.count(mon, reg + "/random", key=(dig(full), tuple(v), trial, "random"), nontrivial=perm is None or n > 1)
                        ck.mark("voxel_filter.random/" + vclass)
                        O = npf(out)
                        ok = ck.check(O.shape == (M, vdim + extra), mon, reg, "voxel_filter(random=True)", "not_one_row_per_occupied_voxel",
                                      lambda: dict(w, got=list(out.shape)))
                        if ok:
                            ri = G.row_index(O, full)
                            okm = ck.check(bool(np.all(ri >= 0)), mon, reg, "voxel_filter(random=True)", "returned_row_is_not_an_input_point", w)
                            if okm:
                                kk = sorted(map(tuple, keys[ri].tolist()))
                                ck.check(kk == sorted(grp.keys()), mon, reg, "voxel_filter(random=True)",
                                         "not_one_member_per_occupied_voxel", lambda: dict(w, got_voxels=kk))
                if len(ck.samples) < 8 and n <= 4:
                    ck.sample({"fn": "voxel_filter", "points_hex": [[float(s).hex() for s in r_] for r_ in full], "voxel": v})


# ------------------------------------------------------------------------------- random_filter
def run_random(ck, rng, dn, thorough):
    reps = 200 if thorough else 12
    case = 0
    for rep in range(reps):
        for kind in ("uniform", "gauss", "outliers"):
            case += 1
            if not ck.mine(case):
                continue
            D = int(rng.integers(1, 10))
            n = int(rng.choice([1, 2, 5, 40, int(rng.integers(1, 301))]))
            bshape = [(), (), (3,), (2, 2)][int(rng.integers(0, 4))]
            nb = int(np.prod(bshape)) if bshape else 1
            pts = np.stack([cloud(rng, n, D, kind, dn)[0] for _ in range(nb)])
            distinct_rows = all(len(np.unique(pts[b], axis=0)) == n for b in range(nb))
            for num in sorted(set([0, 1, n // 2, max(0, n - 1), n])):
                if num > n:
                    continue
                reg = f"random_filter/{dn}/{kind}/num:{'0' if num == 0 else 'N' if num == n else 'mid'}/batch{len(bshape)}"
                wit = {"dtype": dn, "N": n, "D": D, "num": num, "batch": list(bshape), "points": pts if pts.size <= 80 else dig(pts)}
                for trial in range(2):
                    p = np.arange(n) if trial == 0 else rng.permutation(n)
                    mon = "random_filter" if trial == 0 else "random_filter.perm"
                    src = pts[:, p]
                    okc, out = ck.call(mon, reg, "random_filter", lambda: pp.random_filter(tt(src.reshape(bshape + (n, D)), dn), num), witness=wit)
                    if not okc:
                        continue
                    ck.count(mon, reg, key=(dig(pts), num, trial), nontrivial=num > 0 and (trial == 0 or n > 1))
                    if n == 1:
                        ck.mark("random_filter/single-point")
                    ok = ck.check(tuple(out.shape) == bshape + (num, D), mon, reg, "random_filter", "output_shape", lambda: dict(wit, got=list(out.shape)))
                    if not ok:
                        continue
                    O = npf(out).reshape(nb, num, D)
                    for b in range(nb):
                        ri = G.row_index(O[b], pts[b])
                        ck.check(bool(np.all(ri >= 0)), mon, reg, "random_filter", "returned_row_is_not_an_input_point", wit)
                        if distinct_rows:
                            ck.check(len(set(ri.tolist())) == num, mon, reg, "random_filter", "returned_points_not_distinct",
                                     lambda: dict(wit, indices=ri))


# ------------------------------------------------------------------------------- pinhole
def run_camera(ck, rng, dn, thorough):
    u = u_of(dn)
    tiny = float(np.finfo(NPDT[dn]).tiny)
    reps = 300 if thorough else 16
    case = 0
    for rep in range(reps):
        for zsign in ("front", "behind", "mixed"):
            for ext in ("none", "one", "batched"):
                case += 1
                if not ck.mine(case):
                    continue
                bshape = [(), (2,), (2, 3)][int(rng.integers(0, 3))] if ext != "one" else [(), (3,)][int(rng.integers(0, 2))]
                nb = int(np.prod(bshape)) if bshape else 1
                n = int(rng.choice([1, 2, 7, 50, int(rng.integers(1, 301))]))
                # intrinsics: one per batch item (or shared), focal lengths of both signs
                shareK = bool(rng.random() < 0.5) or nb == 1
                nK = 1 if shareK else nb
                f = 10.0 ** rng.uniform(-1, 3, (nK, 2)) * rng.choice([-1.0, 1.0], (nK, 2))
                c = rng.uniform(-500, 500, (nK, 2)) * rng.choice([0.0, 1.0, 1.0])
                K = np.zeros((nK, 3, 3))
                K[:, 0, 0], K[:, 1, 1], K[:, 0, 2], K[:, 1, 2], K[:, 2, 2] = f[:, 0], f[:, 1], c[:, 0], c[:, 1], 1.0
                K = rnd(K, dn)
                # camera-frame points; the whole scene in ordinary, very small or very large units (the pinhole model is homogeneous)
                scene = float(rng.choice([1.0, 1.0, 1.0, 1e-9, 1e6]))
                ck.mark("pinhole/scene-units:%g" % scene)
                z = rng.uniform(0.2, 20, (nb, n)) * scene
                if zsign == "behind":
                    z = -z
                elif zsign == "mixed":
                    z = z * rng.choice([-1.0, 1.0], (nb, n))
                xy = rng.uniform(-3, 3, (nb, n, 2)) * np.abs(z)[..., None]
                pc = np.concatenate([xy, z[..., None]], -1)
                if ext == "none":
                    pw = rnd(pc, dn)
                    q = t = None
                    pc_ref = [L.ld(pw[b]) for b in range(nb)]
                else:
                    nE = 1 if ext == "one" else nb
                    q = G.random_quat(rng, nE)
                    t = rng.standard_normal((nE, 3)) * 10.0 ** rng.uniform(-1, 2, (nE, 1)) * scene
                    E = rnd(np.concatenate([t, q], -1), dn)          # what the library receives
                    t, q = E[:, :3], E[:, 3:]
                    pw = np.stack([rnd(np.asarray(G.rigid_inv(q[b % nE], t[b % nE], pc[b]), dtype=np.float64), dn) for b in range(nb)])
                    pc_ref = [G.rigid(q[b % nE], t[b % nE], pw[b]) for b in range(nb)]
                # keep only well-posed projections after rounding (|z| not collapsed)
                if any(np.abs(np.asarray(p[:, 2], dtype=np.float64)).min() < 0.1 * scene for p in pc_ref):
                    ck.note_add("camera_cases_redrawn_depth_collapsed_by_rounding")
                    continue
                Kb = [K[b % nK] for b in range(nb)]
                px_ref = [G.project(pc_ref[b], Kb[b][0, 0], Kb[b][1, 1], Kb[b][0, 2], Kb[b][1, 2]) for b in range(nb)]
                reg = f"pinhole/{dn}/z:{zsign}/ext:{ext}/K:{'shared' if shareK else 'per-item'}"
                e_p2p = "pixel2point" if shareK else "pixel2point(batched intrinsics)"
                bk = "" if shareK else ".batchedK"
                wit = {"dtype": dn, "N": n, "batch": list(bshape), "K": K, "extrinsics(t,q)": None if q is None else np.concatenate([t, q], -1),
                       "points": pw if pw.size <= 60 else dig(pw)}
                tp = tt(pw.reshape(bshape + (n, 3)), dn)
                tK = tt(K[0] if shareK else K.reshape(bshape + (3, 3)), dn)
                tE = None
                if ext == "one":
                    tE = pp.SE3(tt(E[0], dn))
                elif ext == "batched":
                    tE = pp.SE3(tt(E.reshape(bshape + (7,)), dn))
                ck.mark("pinhole/f:" + fsigns(K))
                ck.mark("pinhole/ext:" + ext)
                ck.mark(f"pinhole/batch-rank{len(bshape)}")
                # ---- point2pixel against the model
                okc, px = ck.call("point2pixel", reg, "point2pixel", lambda: pp.point2pixel(tp, tK, tE), witness=wit)
                if not okc:
                    continue
                ok = ck.check(tuple(px.shape) == bshape + (n, 2), "point2pixel", reg, "point2pixel", "output_shape", lambda: dict(wit, got=list(px.shape)))
                if not ok:
                    continue
                P = npf(px).reshape(nb, n, 2)
                scales = []
                for b in range(nb):
                    pcb = np.asarray(pc_ref[b], dtype=np.float64)
                    az = np.abs(pcb[:, 2])
                    tn = 0.0 if t is None else float(np.linalg.norm(t[b % len(t)]))
                    base = (np.linalg.norm(pw[b], axis=-1) + tn) * (1 + np.linalg.norm(pcb, axis=-1) / az) / az
                    sc = np.stack([np.abs(Kb[b][0, 0]) * base + np.abs(Kb[b][0, 2]), np.abs(Kb[b][1, 1]) * base + np.abs(Kb[b][1, 2])], -1)
                    scales.append(sc)
                    err = np.abs(P[b] - np.asarray(px_ref[b], dtype=np.float64))
                    rr(ck, "point2pixel", reg, err, C_TOL * u * sc + tiny, "point2pixel", "differs_from_pinhole_model",
                              lambda i: dict(wit, item=b, point=int(i // 2), expected=np.asarray(px_ref[b], dtype=np.float64)[i // 2], got=P[b][i // 2]))
                ck.count("point2pixel", reg, n=nb * n, rows=pw.reshape(-1, 3))
                # ---- reprojerr is zero on exactly those pixels; equals model - pixel elsewhere
                shift = rnd(rng.uniform(-3, 3, (nb, n, 2)) * rng.choice([0.0, 1.0], (nb, n, 1)), dn)
                for red in ("none", "sum", "norm"):
                    okc, e0 = ck.call("reprojerr", reg, "reprojerr", lambda: pp.reprojerr(tp, px, tK, tE, reduction=red), witness=wit)
                    if okc:
                        E0 = npf(e0).reshape(nb, n, -1)
                        ck.check(tuple(e0.shape) == bshape + ((n, 2) if red == "none" else (n,)), "reprojerr", reg, "reprojerr", "output_shape",
                                 lambda: dict(wit, got=list(e0.shape), reduction=red))
                        for b in range(nb):
                            rr(ck, "reprojerr.zero", reg, np.abs(E0[b]).max(-1), C_TOL * u * scales[b].max(-1) + tiny, "reprojerr",
                                      "nonzero_on_projected_pixels", lambda i: dict(wit, item=b, point=int(i), reduction=red, got=E0[b][i]))
                    pix2 = px.detach().clone() + tt(shift.reshape(bshape + (n, 2)), dn)
                    okc, e1 = ck.call("reprojerr", reg, "reprojerr", lambda: pp.reprojerr(tp, pix2, tK, tE, reduction=red), witness=wit)
                    if okc and tuple(e1.shape) == bshape + ((n, 2) if red == "none" else (n,)):
                        E1 = npf(e1).reshape(nb, n, -1)
                        P2 = npf(pix2).reshape(nb, n, 2)
                        for b in range(nb):
                            d = np.asarray(px_ref[b], dtype=np.float64) - P2[b]
                            want = d if red == "none" else d.sum(-1, keepdims=True) if red == "sum" else np.sqrt((d * d).sum(-1, keepdims=True))
                            rr(ck, "reprojerr.value", reg, np.abs(E1[b] - want).max(-1), C_TOL * u * (scales[b].max(-1) + np.abs(P2[b]).max(-1)) * 2 + tiny,
                                      "reprojerr", "differs_from_projection_minus_pixel", lambda i: dict(wit, item=b, point=int(i), reduction=red,
                                                                                                         expected=want[i], got=E1[b][i]))
                # ---- pixel2point inverts point2pixel given depth (camera frame)
                depth = np.stack([np.asarray(pc_ref[b][:, 2], dtype=np.float64) for b in range(nb)])
                depth = rnd(depth, dn)
                td = tt(depth.reshape(bshape + (n,)), dn)
                okc, back = ck.call("pixel2point" + bk, reg, e_p2p, lambda: pp.pixel2point(px, td, tK), witness=wit)
                if okc and ck.check(tuple(back.shape) == bshape + (n, 3), "pixel2point" + bk, reg, e_p2p, "output_shape", lambda: dict(wit, got=list(back.shape))):
                    Bk = npf(back).reshape(nb, n, 3)
                    for b in range(nb):
                        pcb = np.asarray(pc_ref[b], dtype=np.float64)
                        # the pixel carries an absolute error ~u*scale; un-projecting multiplies it by |z/f|
                        az = np.abs(pcb[:, 2])
                        fxy = np.abs(np.array([Kb[b][0, 0], Kb[b][1, 1]]))
                        amp = np.concatenate([scales[b] * az[:, None] / fxy, az[:, None]], -1) + np.abs(pcb)
                        # depth was rounded to the dtype: the reference point is the model at that depth
                        want = np.asarray(G.unproject(px_ref[b], depth[b], Kb[b][0, 0], Kb[b][1, 1], Kb[b][0, 2], Kb[b][1, 2]), dtype=np.float64)
                        rr(ck, "pixel2point.roundtrip" + bk, reg, np.abs(Bk[b] - want), 2 * C_TOL * u * amp + tiny, e_p2p,
                                  "pixel2point_of_point2pixel_is_not_the_point", lambda i: dict(wit, item=b, point=int(i // 3), expected=want[i // 3], got=Bk[b][i // 3]))
                # ---- pixel2point against the model on arbitrary pixels, and point2pixel back
                pix = rnd(rng.uniform(-1000, 1000, (nb, n, 2)), dn)
                dep = rnd(rng.uniform(0.2, 20, (nb, n)) * (1.0 if zsign == "front" else -1.0 if zsign == "behind" else rng.choice([-1.0, 1.0], (nb, n))), dn)
                tpx, tdp = tt(pix.reshape(bshape + (n, 2)), dn), tt(dep.reshape(bshape + (n,)), dn)
                okc, pts = ck.call("pixel2point" + bk, reg, e_p2p, lambda: pp.pixel2point(tpx, tdp, tK), witness=wit)
                if okc and tuple(pts.shape) == bshape + (n, 3):
                    Pt = npf(pts).reshape(nb, n, 3)
                    for b in range(nb):
                        want = np.asarray(G.unproject(pix[b], dep[b], Kb[b][0, 0], Kb[b][1, 1], Kb[b][0, 2], Kb[b][1, 2]), dtype=np.float64)
                        fxy = np.abs(np.array([Kb[b][0, 0], Kb[b][1, 1]]))
                        cxy = np.abs(np.array([Kb[b][0, 2], Kb[b][1, 2]]))
                        amp = np.concatenate([(np.abs(pix[b]) + cxy) * np.abs(dep[b])[:, None] / fxy, np.abs(dep[b])[:, None]], -1)
                        rr(ck, "pixel2point" + bk, reg, np.abs(Pt[b] - want), C_TOL * u * amp + tiny, e_p2p, "differs_from_pinhole_model",
                                  lambda i: dict(wit, item=b, point=int(i // 3), expected=want[i // 3], got=Pt[b][i // 3]))
                    ck.count("pixel2point" + bk, reg, n=nb * n, rows=np.concatenate([pix.reshape(-1, 2), dep.reshape(-1, 1)], -1))
                    okc, again = ck.call("point2pixel", reg, "point2pixel", lambda: pp.point2pixel(pts, tK), witness=wit)
                    if okc and tuple(again.shape) == bshape + (n, 2):
                        A = npf(again).reshape(nb, n, 2)
                        for b in range(nb):
                            cxy = np.abs(np.array([Kb[b][0, 2], Kb[b][1, 2]]))
                            rr(ck, "point2pixel.roundtrip" + bk, reg, np.abs(A[b] - pix[b]), 4 * C_TOL * u * (np.abs(pix[b]) + cxy) + tiny,
                                      "point2pixel" if shareK else e_p2p, "point2pixel_of_pixel2point_is_not_the_pixel", lambda i: dict(wit, item=b, point=int(i // 2)))
                if len(ck.samples) < 10 and n <= 2 and nb == 1:
                    ck.sample({"fn": "point2pixel", "K": K[0].tolist(), "points_hex": [[float(s).hex() for s in r_] for r_ in pw[0]],
                               "pixels": P[0].tolist()})


def fsigns(K):
    sx = "+" if np.all(K[:, 0, 0] > 0) else "-" if np.all(K[:, 0, 0] < 0) else "+-"
    sy = "+" if np.all(K[:, 1, 1] > 0) else "-" if np.all(K[:, 1, 1] < 0) else "+-"
    return f"fx{sx}fy{sy}"


def run_homo(ck, rng, dn, thorough):
    u = u_of(dn)
    tiny = float(np.finfo(NPDT[dn]).tiny)
    reps = 200 if thorough else 12
    case = 0
    for rep in range(reps):
        for D in range(1, 7):
            case += 1
            if not ck.mine(case):
                continue
            bshape = [(), (4,), (2, 3), (1, 2, 3)][int(rng.integers(0, 4))]
            n = int(rng.choice([1, 3, 50, 300]))
            x = rnd(rng.standard_normal(bshape + (n, D)) * 10.0 ** rng.integers(-6, 7, bshape + (n, 1)), dn)
            x.reshape(-1, D)[:: max(1, n // 3)] *= 0.0 if rep % 4 == 0 else 1.0     # exact zeros included
            reg = f"homo/{dn}/D{D}/batch{len(bshape)}"
            wit = {"dtype": dn, "D": D, "shape": list(x.shape), "x": x if x.size <= 60 else dig(x)}
            tx = tt(x, dn)
            okc, h = ck.call("cart2homo", reg, "cart2homo", lambda: pp.cart2homo(tx), witness=wit)
            if not okc:
                continue
            H = npf(h)
            ck.check(H.shape == x.shape[:-1] + (D + 1,) and bool(np.all(H[..., :D] == x)) and bool(np.all(H[..., D] == 1)),
                     "cart2homo", reg, "cart2homo", "not_the_point_with_a_one_appended", wit)
            ck.count("cart2homo", reg, n=x[..., 0].size, rows=x.reshape(-1, D))
            okc, c = ck.call("homo2cart", reg, "homo2cart", lambda: pp.homo2cart(h), witness=wit)
            if okc and ck.check(tuple(c.shape) == x.shape, "homo2cart", reg, "homo2cart", "output_shape", lambda: dict(wit, got=list(c.shape))):
                rr(ck, "homo.roundtrip", reg, np.abs(npf(c) - x).max(-1), C_TOL * u * np.abs(x).max(-1) + tiny, "homo2cart",
                          "homo2cart_of_cart2homo_is_not_the_point", lambda i: dict(wit, row=int(i)))
            # general homogeneous coordinates: divide by the last component (any sign)
            w = rnd(10.0 ** rng.uniform(-3, 3, x.shape[:-1] + (1,)) * rng.choice([-1.0, 1.0], x.shape[:-1] + (1,)), dn)
            hw = np.concatenate([x, w], -1)
            okc, c = ck.call("homo2cart", reg, "homo2cart", lambda: pp.homo2cart(tt(hw, dn)), witness=wit)
            if okc and tuple(c.shape) == x.shape:
                want = np.asarray(L.ld(x) / L.ld(w), dtype=np.float64)
                rr(ck, "homo2cart", reg, np.abs(npf(c) - want).max(-1), C_TOL * u * np.abs(want).max(-1) + tiny, "homo2cart",
                          "not_divided_by_last_component", lambda i: dict(wit, row=int(i), w=w.reshape(-1)[i].item()))
                ck.count("homo2cart", reg, n=x[..., 0].size, rows=hw.reshape(-1, D + 1))


# ------------------------------------------------------------------------------- driver
def run(ck):
    if ck.shard == 0:
        # repeat-call monitor (shared, added by the framework owner): history / reused-object / memory-layout independence
        from .. import repeat
        repeat.run(ck, PID, repeat.table(PID, ck.rng("repeat")))
    thorough = ck.tier == "thorough"
    if ck.shard == 1 % ck.nshards:
        run_voxel_tiny(ck, ck.rng("voxtiny"))
    ck.require("voxel_filter/tiny-voxel", "pinhole/scene-units:1e-09", "pinhole/scene-units:1e+06")
    for dn in ("f64", "f32"):
        run_knn(ck, ck.rng("knn" + dn), dn, thorough)
        run_nbr(ck, ck.rng("nbr" + dn), dn, thorough)
        run_knn_filter(ck, ck.rng("knnf" + dn), dn, thorough)
        run_voxel(ck, ck.rng("vox" + dn), dn, thorough)
        run_random(ck, ck.rng("rand" + dn), dn, thorough)
        run_camera(ck, ck.rng("cam" + dn), dn, thorough)
        run_homo(ck, ck.rng("homo" + dn), dn, thorough)
    ck.require("knn/ord1", "knn/ord2", "knn/ordinf", "knn/k=1", "knn/k=N", "knn/1<k<N-1",
               "nbr_filter/removed:first", "nbr_filter/removed:middle", "nbr_filter/removed:last",
               "nbr_filter/removed:none", "nbr_filter/removed:all", "nbr_filter/removed:before-a-kept-row",
               "nbr_filter/single-point",
               "knn_filter/removed:first", "knn_filter/removed:middle", "knn_filter/removed:last",
               "knn_filter/removed:none", "knn_filter/removed:before-a-kept-row", "knn_filter/single-point",
               "knn_filter/k=0", "knn_filter/k=1", "knn_filter/k=all-others", "knn_filter/1<k<N-1",
               "voxel_filter/single-point", "voxel_filter/single-voxel", "voxel_filter/multi",
               "voxel_filter.random/single-point", "voxel_filter.random/single-voxel", "voxel_filter.random/multi",
               "random_filter/single-point",
               "pinhole/f:fx-fy+", "pinhole/f:fx+fy-", "pinhole/f:fx-fy-", "pinhole/f:fx+fy+",
               "pinhole/ext:none", "pinhole/ext:one", "pinhole/ext:batched")
    for m, n in (("knn", 60), ("knn.values", 60), ("knn.index_exact", 200), ("knn.perm", 60), ("nbr_filter", 40), ("nbr_filter.perm", 40),
                 ("knn_filter", 40), ("knn_filter.mean", 200), ("knn_filter.radius", 40), ("knn_filter.perm", 60),
                 ("voxel_filter", 20), ("voxel_filter.centroid", 20), ("voxel_filter.perm", 20), ("random_filter", 10),
                 ("point2pixel", 100), ("pixel2point", 100), ("pixel2point.roundtrip", 100), ("reprojerr.zero", 100),
                 ("reprojerr.value", 100), ("homo.roundtrip", 50)):
        ck.floor(m, n)
