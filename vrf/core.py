"""Monitor bookkeeping, three-valued verdicts, evidence files, sharded runs.

A check module (vrf/checks/cNN.py) provides

    PID      = "C01"
    LEVEL    = "exploration" | "fault_enumeration"
    SHARDS   = {"quick": 4, "thorough": 16}
    TIMEOUT  = {"quick": 600, "thorough": 3600}     # wall-clock watchdog (inconclusive)
    RULE     = "how cases are generated; what makes one distinct and non-trivial"
    ASSUME   = [...]
    def run(ck): ...          # drives the workloads; every oracle evaluation goes through
                              # ck.count()/ck.check()/ck.ratio()

Every worker is a fresh interpreter (subprocess with a timeout, never multiprocessing.Pool).
The parent merges the partial results, classifies violations against known_findings.json,
writes evidence/<id>.json and prints the verdict lines.
"""
import fnmatch
import hashlib
import importlib
import json
import os
import subprocess
import sys
import tempfile
import time
import traceback

import numpy as np

from . import ROOT, REPO

EXIT_HELD, EXIT_VIOLATION, EXIT_BROKEN, EXIT_INCONCLUSIVE = 0, 1, 2, 3
MAX_WITNESSES = 40
MAX_PER_KIND = 4
MAX_SAMPLES = 12
DEBUG_RATIO = float(os.environ.get("VRF_DEBUG_RATIO", "inf"))   # print near misses above this err/tol


def hexf(x):
    """A float / tensor / array written so that it can be reproduced bit for bit."""
    try:
        import torch
        if isinstance(x, torch.Tensor):
            x = x.detach().cpu().double().numpy()
    except Exception:
        pass
    a = np.asarray(x, dtype=np.float64)
    if a.ndim == 0:
        return float(a).hex()
    return [hexf(v) for v in a]


def plain(x, depth=0):
    """JSON-able rendering of a witness value (tensors become nested lists of floats)."""
    try:
        import torch
        if isinstance(x, torch.Tensor):
            x = x.detach().cpu()
            if x.numel() > 400:
                return {"shape": list(x.shape), "dtype": str(x.dtype),
                        "head": plain(x.reshape(-1)[:60])}
            if x.is_floating_point() or x.is_complex():
                return x.double().tolist() if not x.is_complex() else str(x.tolist())
            return x.tolist()
    except Exception:
        pass
    if isinstance(x, np.ndarray):
        if x.size > 400:
            return {"shape": list(x.shape), "head": plain(x.reshape(-1)[:60])}
        return [plain(v) for v in x.tolist()] if x.ndim else plain(x.item())
    if isinstance(x, (np.floating, np.integer, np.bool_)):
        return x.item()
    if isinstance(x, float):
        return x if np.isfinite(x) else repr(x)
    if isinstance(x, (int, str, bool)) or x is None:
        return x
    if isinstance(x, dict):
        return {str(k): plain(v, depth + 1) for k, v in x.items()}
    if isinstance(x, (list, tuple, set)):
        return [plain(v, depth + 1) for v in x]
    return repr(x)[:400]


def row_digests(rows):
    """64-bit digests of the rows of a 2-D array (one row = one case)."""
    rows = np.ascontiguousarray(rows)
    if rows.size == 0:
        return np.empty(0, dtype=np.uint64)
    if rows.ndim == 1:
        rows = rows[:, None]
    rows = rows.reshape(rows.shape[0], -1)
    out = np.empty(rows.shape[0], dtype=np.uint64)
    for i in range(rows.shape[0]):
        out[i] = int.from_bytes(hashlib.blake2b(rows[i].tobytes(), digest_size=8).digest(), "little")
    return out


def key_digest(key):
    return int.from_bytes(hashlib.blake2b(repr(key).encode(), digest_size=8).digest(), "little")


class Check:
    """Accumulates what the monitors of one property observed in one worker."""

    def __init__(self, pid, tier, seed, shard=0, nshards=1):
        self.pid, self.tier, self.seed = pid, tier, int(seed)
        self.shard, self.nshards = shard, nshards
        self.evaluations = 0
        self.regimes = {}          # "monitor|regime" -> count
        self.monitors = {}         # monitor -> {"calls": n, "max_ratio": r, "worst": witness}
        self.digests = set()
        self.required = {}         # regime key -> minimum count
        self.floors = {}           # monitor -> minimum number of evaluations
        self.samples = []
        self.violations = []       # dicts: monitor, regime, entry, mech, witness
        self.n_violations = 0
        self.kind_counts = {}
        self.notes = {}
        self.inconclusive = []
        self.t0 = time.time()
        self.exhaustive = None

    # ------------------------------------------------------------------ helpers
    def mine(self, i):
        """Static partition of deterministic case lists over the shards."""
        return i % self.nshards == self.shard

    def rng(self, name=""):
        h = key_digest((self.pid, self.seed, self.shard, name)) % (2 ** 32)
        return np.random.default_rng(h)

    def tgen(self, name=""):
        import torch
        g = torch.Generator()
        g.manual_seed(key_digest((self.pid, self.seed, self.shard, name)) % (2 ** 31))
        return g

    def subseed(self, name=""):
        return key_digest((self.pid, self.seed, self.shard, name)) % (2 ** 31)

    # ------------------------------------------------------------------ counting
    def count(self, monitor, regime, n=1, rows=None, key=None, nontrivial=True):
        """Record n oracle evaluations by `monitor` in `regime`.

        rows: 2-D array, one row per case (digested for the distinct count); key: any
        hashable identifying a single case.  Trivial cases are counted as evaluations only.
        """
        self.evaluations += n
        rk = f"{monitor}|{regime}"
        self.regimes[rk] = self.regimes.get(rk, 0) + n
        m = self.monitors.setdefault(monitor, {"calls": 0, "max_ratio": 0.0})
        m["calls"] += n
        if nontrivial:
            if rows is not None:
                self.digests.update(int(d) ^ key_digest(monitor) for d in row_digests(rows))
            elif key is not None:
                self.digests.add(key_digest((monitor, regime, key)))
            else:
                self.digests.add(key_digest((monitor, regime)))

    def mark(self, tag, n=1):
        """Record that a (coarse) regime was observed, without counting an evaluation."""
        self.regimes[tag] = self.regimes.get(tag, 0) + n

    def require(self, *regime_keys, minimum=1):
        for k in regime_keys:
            self.required[k] = max(self.required.get(k, 0), minimum)

    def floor(self, monitor, minimum):
        self.floors[monitor] = max(self.floors.get(monitor, 0), minimum)

    def sample(self, obj, force=False):
        if len(self.samples) < MAX_SAMPLES or force:
            self.samples.append(plain(obj))

    def note(self, key, value):
        self.notes[key] = plain(value)

    def note_add(self, key, n=1):
        self.notes[key] = self.notes.get(key, 0) + n

    def note_max(self, key, v):
        v = float(v)
        if not (self.notes.get(key, -np.inf) >= v):
            self.notes[key] = v

    # ------------------------------------------------------------------ verdicts
    def violation(self, monitor, regime, entry, mech, witness):
        """Witnesses are capped per (entry, mech) so that a flood of one mechanism (e.g. a known finding) can never
        push a different mechanism out of the list that is classified against known_findings.json."""
        self.n_violations += 1
        k = (entry, mech)
        self.kind_counts[k] = self.kind_counts.get(k, 0) + 1
        if self.kind_counts[k] <= MAX_PER_KIND and len(self.violations) < MAX_WITNESSES * 10:
            self.violations.append({"monitor": monitor, "regime": str(regime), "entry": entry,
                                    "mech": mech, "witness": plain(witness)})

    def check(self, cond, monitor, regime, entry, mech, witness=None):
        """Boolean post-condition; `witness` may be a callable building the dict lazily."""
        if not bool(cond):
            w = witness() if callable(witness) else witness
            self.violation(monitor, regime, entry, mech, w)
            return False
        return True

    def ratio(self, monitor, regime, err, tol, entry, mech, witness=None):
        """Numerical post-condition err <= tol (scalars); tracks the worst err/tol seen."""
        err, tol = float(err), float(tol)
        r = err / tol if tol > 0 else (0.0 if err == 0 else np.inf)
        if not np.isfinite(err):
            r = np.inf
        m = self.monitors.setdefault(monitor, {"calls": 0, "max_ratio": 0.0})
        if r > m["max_ratio"] and np.isfinite(r):
            m["max_ratio"] = r
        if r > DEBUG_RATIO and r <= 1.0:
            w = witness() if callable(witness) else (witness or {})
            sys.stderr.write(f"[near-miss] {monitor} {regime} {entry} {mech} r={r:.3g} {json.dumps(plain(w))[:900]}\n")
        if not (r <= 1.0):
            w = witness() if callable(witness) else (witness or {})
            w = dict(w)
            w.update({"err": err, "tol": tol})
            self.violation(monitor, regime, entry, mech, w)
            return False
        return True

    def ratios(self, monitor, regime, err, tol, entry, mech, witness_of=None, max_report=3):
        """Vectorised version: err, tol arrays; reports the worst few offenders."""
        err = np.asarray(err, dtype=np.float64).reshape(-1)
        tol = np.broadcast_to(np.asarray(tol, dtype=np.float64), err.shape).reshape(-1)
        with np.errstate(all="ignore"):
            r = np.where(tol > 0, err / tol, np.where(err == 0, 0.0, np.inf))
        r = np.where(np.isfinite(err), r, np.inf)
        m = self.monitors.setdefault(monitor, {"calls": 0, "max_ratio": 0.0})
        fin = r[np.isfinite(r)]
        if fin.size and fin.max() > m["max_ratio"]:
            m["max_ratio"] = float(fin.max())
        bad = np.nonzero(~(r <= 1.0))[0]
        if bad.size:
            order = bad[np.argsort(-np.nan_to_num(r[bad], posinf=1e300))][:max_report]
            for i in order:
                w = witness_of(int(i)) if witness_of else {}
                w = dict(w)
                w.update({"err": float(err[i]), "tol": float(tol[i]), "index": int(i),
                          "n_bad_in_call": int(bad.size)})
                self.violation(monitor, regime, entry, mech, w)
            self.n_violations += int(bad.size) - len(order)
        return bad.size == 0

    def call(self, monitor, regime, entry, fn, *a, witness=None, **kw):
        """Run a public function on an input the property declares valid: an exception is a
        violation (the call stays open in the log), not a harness error."""
        try:
            return True, fn(*a, **kw)
        except Exception as e:  # noqa
            w = witness() if callable(witness) else (witness or {})
            w = dict(w)
            w.update({"exception": repr(e)[:500],
                      "traceback": traceback.format_exc(limit=-6)[-1500:]})
            self.violation(monitor, regime, entry, "raised:" + type(e).__name__, w)
            return False, None

    def inconclusive_because(self, reason):
        self.inconclusive.append(reason)

    def absorb(self, p):
        """Merge the partial result of a monitored sub-run (e.g. the repository's tests under the pytest plugin)."""
        self.evaluations += p["evaluations"]
        for k, v in p["regimes"].items():
            self.regimes[k] = self.regimes.get(k, 0) + v
        for k, v in p["monitors"].items():
            m = self.monitors.setdefault(k, {"calls": 0, "max_ratio": 0.0})
            m["calls"] += v["calls"]
            m["max_ratio"] = max(m["max_ratio"], v["max_ratio"])
        self.digests.update(p["digests"])
        self.violations.extend(p["violations"])
        self.n_violations += p["n_violations"]
        for k, v in p["notes"].items():
            if isinstance(v, (int, float)) and isinstance(self.notes.get(k, 0), (int, float)):
                self.notes[k] = self.notes.get(k, 0) + v
            else:
                self.notes.setdefault(k, v)

    # ------------------------------------------------------------------ partial results
    def to_partial(self):
        return {"evaluations": self.evaluations, "regimes": self.regimes,
                "monitors": self.monitors, "digests": sorted(self.digests),
                "required": self.required, "floors": self.floors, "samples": self.samples,
                "violations": self.violations, "n_violations": self.n_violations,
                "notes": self.notes, "inconclusive": self.inconclusive,
                "exhaustive": self.exhaustive, "wall": time.time() - self.t0}


NOTE_MERGE_MAX = ("max_", "worst_")


def merge(partials):
    out = {"evaluations": 0, "regimes": {}, "monitors": {}, "digests": set(), "required": {},
           "floors": {}, "samples": [], "violations": [], "n_violations": 0, "notes": {},
           "inconclusive": [], "exhaustive": None}
    for p in partials:
        out["evaluations"] += p["evaluations"]
        for k, v in p["regimes"].items():
            out["regimes"][k] = out["regimes"].get(k, 0) + v
        for k, v in p["monitors"].items():
            m = out["monitors"].setdefault(k, {"calls": 0, "max_ratio": 0.0})
            m["calls"] += v["calls"]
            m["max_ratio"] = max(m["max_ratio"], v["max_ratio"])
        out["digests"].update(p["digests"])
        for k, v in p["required"].items():
            out["required"][k] = max(out["required"].get(k, 0), v)
        for k, v in p["floors"].items():
            out["floors"][k] = max(out["floors"].get(k, 0), v)
        out["samples"].extend(p["samples"][: max(2, MAX_SAMPLES // max(1, len(partials)))])
        out["violations"].extend(p["violations"])
        out["n_violations"] += p["n_violations"]
        for k, v in p["notes"].items():
            if k not in out["notes"]:
                out["notes"][k] = v
            elif isinstance(v, (int, float)) and isinstance(out["notes"][k], (int, float)):
                if k.startswith(NOTE_MERGE_MAX):
                    out["notes"][k] = max(out["notes"][k], v)
                elif k.startswith("min_"):
                    out["notes"][k] = min(out["notes"][k], v)
                else:
                    out["notes"][k] = out["notes"][k] + v
            elif isinstance(v, list) and isinstance(out["notes"][k], list):
                for item in v:
                    if item not in out["notes"][k]:
                        out["notes"][k].append(item)
            elif isinstance(v, dict) and isinstance(out["notes"][k], dict):
                for kk, vv in v.items():
                    if isinstance(vv, (int, float)) and isinstance(out["notes"][k].get(kk), (int, float)):
                        out["notes"][k][kk] = out["notes"][k][kk] + vv
                    else:
                        out["notes"][k].setdefault(kk, vv)
        out["inconclusive"].extend(p["inconclusive"])
        if p["exhaustive"] is not None:
            out["exhaustive"] = p["exhaustive"] if out["exhaustive"] is None else (out["exhaustive"] and p["exhaustive"])
    return out


# ---------------------------------------------------------------------- known findings
def load_findings():
    path = os.path.join(ROOT, "known_findings.json")
    if not os.path.exists(path):
        return []
    with open(path) as f:
        return json.load(f).get("findings", [])


def explain(pid, v, findings):
    """Return the known finding (status == 'known') whose mechanism explains witness v."""
    for f in findings:
        if f.get("status") != "known" or f.get("property") != pid:
            continue
        if not fnmatch.fnmatch(v["entry"], f.get("entry", "*")):
            continue
        if not fnmatch.fnmatch(v["mech"], f.get("mech", "*")):
            continue
        return f
    return None


# ---------------------------------------------------------------------- driver
def worker_main(pid, tier, seed, shard, nshards, out_path):
    mod = importlib.import_module(f"vrf.checks.{pid.lower()}")
    import torch
    torch.set_num_threads(1)
    torch.manual_seed(key_digest((pid, seed, shard)) % (2 ** 31))
    np.random.seed(key_digest((pid, seed, shard, "np")) % (2 ** 31))
    import random
    random.seed(key_digest((pid, seed, shard, "py")))
    ck = Check(pid, tier, seed, shard, nshards)
    try:
        mod.run(ck)
    except Exception as e:  # noqa
        # Safety net.  The unchanged library never raises under the workloads (that is what the sweeps establish), so an exception that
        # escapes a check and was RAISED INSIDE THE LIBRARY (innermost frames in the package under test) is the library refusing or
        # mishandling an input the workload declares valid: a violation with the traceback as witness.  An exception raised by the
        # check's own code stays a harness error.
        import traceback
        tb = traceback.extract_tb(e.__traceback__)
        lib_dir = os.path.join(os.path.realpath(REPO), "pypose") + os.sep
        own_dir = os.path.realpath(ROOT) + os.sep
        ours = [fr for fr in tb if os.path.realpath(fr.filename).startswith((lib_dir, own_dir))]
        inner = [fr for fr in tb if os.path.realpath(fr.filename).startswith(lib_dir)]
        # the deepest frame that is either the check's or the library's decides who raised (frames of torch below it do not count)
        if not inner or not os.path.realpath(ours[-1].filename).startswith(lib_dir):
            raise
        fr = inner[-1]
        ck.violation("uncaught", "exception escaped the check", f"{os.path.basename(fr.filename)}:{fr.name}", "raised:" + type(e).__name__,
                     {"exception": repr(e)[:400], "traceback": "".join(traceback.format_exception(type(e), e, e.__traceback__))[-2500:]})
    with open(out_path, "w") as f:
        json.dump(ck.to_partial(), f)


def replay_main(pid, path):
    """Re-run the monitor that produced a witness on the recorded case."""
    mod = importlib.import_module(f"vrf.checks.{pid.lower()}")
    with open(path) as f:
        rec = json.load(f)
    if not hasattr(mod, "replay"):
        print(json.dumps(rec, indent=1)[:4000])
        print("(this check has no programmatic replay; the witness above is self-contained)")
        return 0
    ck = Check(pid, rec.get("tier", "quick"), rec.get("seed", 0))
    n = 0
    for v in rec["violations"]:
        mod.replay(ck, v)
        n += 1
    print(f"replayed {n} witnesses: {ck.n_violations} violations reproduced")
    for v in ck.violations[:5]:
        print(json.dumps(v)[:1500])
    return 1 if ck.n_violations else 0


def run_check(pid, tier, seed):
    t0 = time.time()
    mod = importlib.import_module(f"vrf.checks.{pid.lower()}")
    nshards = int(os.environ.get("VERIF_SHARDS", mod.SHARDS.get(tier, 1)))
    timeout = mod.TIMEOUT.get(tier, 1800)
    env = dict(os.environ)
    env.setdefault("PYTHONHASHSEED", "0")
    env["OMP_NUM_THREADS"] = env["MKL_NUM_THREADS"] = "1"
    env["PYTHONPATH"] = ROOT + os.pathsep + env.get("PYTHONPATH", "")
    partials, broken, timed_out = [], [], []
    with tempfile.TemporaryDirectory(prefix=f"vrf_{pid}_") as tmp:
        procs = []
        for s in range(nshards):
            out = os.path.join(tmp, f"p{s}.json")
            log = open(os.path.join(tmp, f"p{s}.log"), "w")
            p = subprocess.Popen([sys.executable, "-m", "vrf", "worker", pid, "--tier", tier,
                                  "--seed", str(seed), "--shard", f"{s}/{nshards}", "--out", out],
                                 stdout=log, stderr=subprocess.STDOUT, env=env, cwd=ROOT)
            procs.append((s, p, out, log))
        deadline = t0 + timeout
        for s, p, out, log in procs:
            try:
                p.wait(timeout=max(1.0, deadline - time.time()))
            except subprocess.TimeoutExpired:
                p.kill()
                p.wait()
                timed_out.append(s)
            log.close()
            if s in timed_out:
                continue
            if p.returncode != 0 or not os.path.exists(out):
                with open(log.name) as f:
                    broken.append((s, p.returncode, f.read()[-3000:]))
            else:
                with open(out) as f:
                    partials.append(json.load(f))
    if broken:
        for s, rc, tail in broken:
            print(f"HARNESS-ERROR property={pid} shard={s} rc={rc}\n{tail}")
        return EXIT_BROKEN
    res = merge(partials)
    for s in timed_out:
        res["inconclusive"].append(f"watchdog: shard {s} exceeded {timeout}s wall clock")

    # ---- starvation / required regimes
    seen = res["regimes"]
    missing = [k for k, n in res["required"].items() if seen.get(k, 0) < n]
    if missing:
        res["inconclusive"].append("required regimes not observed: " + ", ".join(sorted(missing)[:12]))
    for mname, n in res["floors"].items():
        if res["monitors"].get(mname, {}).get("calls", 0) < n:
            res["inconclusive"].append(f"monitor {mname} saw fewer than {n} events")
    if res["evaluations"] == 0:
        res["inconclusive"].append("no monitor observed anything")

    # ---- classify violations
    findings = load_findings()
    unexplained, known_hit = [], {}
    for v in res["violations"]:
        f = explain(pid, v, findings)
        if f is None:
            unexplained.append(v)
        else:
            known_hit.setdefault(f["id"], (f, 0))
            known_hit[f["id"]] = (f, known_hit[f["id"]][1] + 1)

    wall = time.time() - t0
    level = getattr(mod, "LEVEL", "exploration")
    distinct = len(res["digests"])
    coverage = {
        "evaluations": int(res["evaluations"]),
        "distinct_nontrivial": int(distinct),
        "rule": mod.RULE,
        "samples": res["samples"][:MAX_SAMPLES] or [{"note": "no sample recorded"}],
        "regimes_observed": len(seen),
        "regime_counts": dict(sorted(seen.items())),
        "required_regimes": sorted(res["required"]),
        "missing_regimes": sorted(missing),
        "monitors": res["monitors"],
        "shards": nshards,
        "verdict": ("violated" if unexplained else "inconclusive" if res["inconclusive"] else "held-on-observed"),
        "inconclusive_reasons": res["inconclusive"],
        "known_findings_hit": {k: n for k, (f, n) in known_hit.items()},
        "repo": REPO,
    }
    if res["exhaustive"] is not None:
        coverage["exhaustive"] = bool(res["exhaustive"])
    coverage.update({k: v for k, v in res["notes"].items() if k not in coverage})
    evidence = {"property_id": pid, "tier": tier, "seed": int(seed), "level": level,
                "coverage": coverage, "assumptions": list(getattr(mod, "ASSUME", [])),
                "wall_s": round(wall, 2), "violations": int(res["n_violations"])}
    os.makedirs(os.path.join(ROOT, "evidence"), exist_ok=True)
    ev_path = os.path.join(ROOT, "evidence", f"{pid}.json")
    with open(ev_path, "w") as f:
        json.dump(evidence, f, indent=1, sort_keys=False)
    try:
        import jsonschema
        with open("/root/.vp/EVIDENCE.schema.json") as f:
            jsonschema.validate(evidence, json.load(f))
    except ImportError:
        pass
    except FileNotFoundError:
        pass

    worst = ", ".join(f"{k}:{v['calls']}ev/r={v['max_ratio']:.3g}" for k, v in sorted(res["monitors"].items()))
    print(f"[{pid}] tier={tier} seed={seed} shards={nshards} evaluations={res['evaluations']} "
          f"distinct={distinct} regimes={len(seen)} wall={wall:.1f}s")
    print(f"[{pid}] monitors: {worst}")
    for k, (f, n) in known_hit.items():
        print(f"KNOWN-FINDING: property={pid} {f['id']} {f['what']} ({n} witnesses this run)")
    if unexplained:
        os.makedirs(os.path.join(ROOT, "replay"), exist_ok=True)
        rp = os.path.join(ROOT, "replay", f"{pid}_{tier}_{seed}.json")
        with open(rp, "w") as f:
            json.dump({"property": pid, "tier": tier, "seed": int(seed),
                       "violations": unexplained}, f, indent=1)
        for v in unexplained[:6]:
            print(f"  witness monitor={v['monitor']} entry={v['entry']} mech={v['mech']} "
                  f"regime={v['regime']} :: {json.dumps(v['witness'])[:600]}")
        print(f"VIOLATION property={pid} replay={rp}")
        return EXIT_VIOLATION
    if res["inconclusive"]:
        print(f"INCONCLUSIVE property={pid} reason={'; '.join(res['inconclusive'])[:800]}")
        return EXIT_INCONCLUSIVE
    print(f"[{pid}] held on everything observed")
    return EXIT_HELD
