#!/venv/bin/python
"""mkmut.py PID NAME FILE <<< JSON [[old, new], ...]   -> selfcheck/PID/NAME.diff (unified diff vs /repo)"""
import sys, json, difflib, os
pid, name, rel = sys.argv[1:4]
pairs = json.load(sys.stdin)
src = open(os.path.join('/repo', rel)).read()
new = src
for old, rep in pairs:
    assert new.count(old) >= 1, f"pattern not found: {old[:60]!r}"
    new = new.replace(old, rep, 1)
d = ''.join(difflib.unified_diff(src.splitlines(True), new.splitlines(True), 'a/' + rel, 'b/' + rel))
os.makedirs(f'/verif/selfcheck/{pid}', exist_ok=True)
open(f'/verif/selfcheck/{pid}/{name}.diff', 'w').write(d)
print(name, len(d.splitlines()), 'lines')
