"""Independent reference models for the dynamics classes (numpy / sympy / torch only).

* `TimeAutomaton`     -- the specification of the system-time counter.
* `affine`            -- A x + B u + c with numpy broadcasting and its round-off magnitude.
* `SmoothSystem`      -- a randomly generated smooth nonlinear system: transition f and
                         observation g are polynomial / trigonometric expression trees in
                         (x, u, t) built with sympy *together with* their symbolic Jacobians.
                         The expressions are compiled twice: to a torch callable (handed to the
                         library as the user's model) and to numpy float64 callables (reference
                         values, reference Jacobians, round-off magnitudes).
* `cartpole_ref`      -- a separate numpy copy of the cart-pole step used by the repo's tests.
* `nls_subclass`      -- builds the user-side subclass from a base class passed in by the check
                         (this module never imports the library under test).
"""
import math

import numpy as np
import sympy as sp
import torch


# --------------------------------------------------------------------------- time automaton
class TimeAutomaton:
    """System time: starts at 0; a call advances it by exactly one; reset(t=0) and assignment
    set it; nothing else changes it."""

    def __init__(self):
        self.t = 0
        self.events = 0

    def call(self):
        self.t += 1
        self.events += 1

    def set(self, t=0):
        self.t = int(t)
        self.events += 1

    def keep(self):
        self.events += 1


# --------------------------------------------------------------------------- affine maps
def affine(M1, v1, M2, v2, c=None):
    """(M1 v1 + M2 v2 + c, |M1||v1| + |M2||v2| + |c|) with numpy broadcasting over leading axes,
    float64.  Written with einsum on explicitly broadcast operands (no matmul on a vector)."""
    M1, v1, M2, v2 = (np.asarray(a, dtype=np.float64) for a in (M1, v1, M2, v2))
    val = np.einsum("...ij,...j->...i", M1, v1) + np.einsum("...ij,...j->...i", M2, v2)
    mag = np.einsum("...ij,...j->...i", np.abs(M1), np.abs(v1)) + np.einsum("...ij,...j->...i", np.abs(M2), np.abs(v2))
    if c is not None:
        c = np.asarray(c, dtype=np.float64)
        val = val + c
        mag = mag + np.abs(c)
    return val, mag


# --------------------------------------------------------------------------- expression trees
def _tsin(a):
    return torch.sin(a) if torch.is_tensor(a) else math.sin(a)


def _tcos(a):
    return torch.cos(a) if torch.is_tensor(a) else math.cos(a)


def _q(v, den=1000):
    """Exact rational constant: no binary/decimal printing round-off can separate the torch
    model from the numpy reference or from the symbolic derivative."""
    return sp.Rational(int(round(float(v) * den)), den)


def _coef(rng, lo=0.3, hi=1.5):
    return _q(rng.uniform(lo, hi) * rng.choice([-1.0, 1.0]))


def _magnitude(e):
    """An expression bounding the size of every intermediate quantity of `e` when the symbols
    are replaced by the absolute values of their arguments (round-off scale of evaluating e or
    of propagating derivatives through it)."""
    if e.is_Number:
        return abs(e)
    if e.is_Symbol:
        return e
    if e.is_Add:
        return sp.Add(*[_magnitude(a) for a in e.args])
    if e.is_Mul:
        return sp.Mul(*[_magnitude(a) for a in e.args])
    if e.is_Pow:
        b, n = e.args
        if n.is_Integer and int(n) > 0:
            return _magnitude(b) ** int(n)
        raise ValueError("unsupported power in generated expression: %s" % e)
    if e.func in (sp.sin, sp.cos):
        return 1 + _magnitude(e.args[0])
    raise ValueError("unsupported node %s" % e.func)


class SmoothSystem:
    """x' = f(x, u, t),  y = g(x, u, t)  with n states, m inputs, q observations."""

    def __init__(self, rng, n, m, q, kind="tree", depth=3, time_dep=True, nl_gain=1.0):
        self.n, self.m, self.q, self.kind = n, m, q, kind
        self.xs = sp.symbols("x0:%d" % n, real=True)
        self.us = sp.symbols("u0:%d" % m, real=True)
        self.t = sp.Symbol("t", real=True)
        self.rng, self.time_dep = rng, time_dep
        v = list(self.xs) + list(self.us)
        if kind == "affine":
            # time-varying affine system (Floquet-like): second-order error is identically zero
            f = [sum(_coef(rng, 0.1, 0.9) * (1 + _q(0.3) * sp.cos(_q(0.21) * self.t + i)) * s for s in v) + _coef(rng) * sp.sin(_q(0.4) * self.t)
                 for i in range(n)]
            g = [sum(_coef(rng, 0.1, 0.9) * s for s in v) + _coef(rng) * self.t / 16 for i in range(q)]
        elif kind == "mild":
            # linear part + bounded smooth nonlinearity (keeps iterative-LQR roll-outs finite)
            Al = rng.standard_normal((n, n))
            Al *= rng.uniform(0.3, 1.05) / max(np.abs(np.linalg.eigvals(Al)).max(), 1e-9)
            Bl = rng.standard_normal((n, m))
            f = []
            for i in range(n):
                lin = sum(_q(Al[i, j]) * self.xs[j] for j in range(n)) + sum(_q(Bl[i, j]) * self.us[j] for j in range(m))
                nl = sum(_coef(rng, 0.1, 0.4) * _q(nl_gain) * self._bounded_slope_term() for _ in range(2))
                f.append(lin + nl)
            g = [self._tree(1) + self.xs[int(rng.integers(n))] for _ in range(q)]
        else:
            f = [self._output(depth) for _ in range(n)]
            g = [self._output(max(1, depth - 1)) for _ in range(q)]
            # every system has an explicit product of time and state, and a pure-state output
            f[0] = f[0] + _coef(rng) * sp.sin(_q(0.37) * self.t + _q(0.5)) * self.xs[int(rng.integers(n))] if time_dep else f[0]
            if rng.random() < 0.5:
                g[int(rng.integers(q))] = self.xs[int(rng.integers(n))]     # D row == 0 (cart-pole style)
        self.f, self.g = [sp.sympify(e) for e in f], [sp.sympify(e) for e in g]
        self._compile()

    # -- random trees ------------------------------------------------------------------
    def _bounded_slope_term(self):
        """sin / cos of a linear form in at most two variables and time: globally Lipschitz, so
        an iterative-LQR roll-out without line search cannot blow up on it."""
        v = list(self.xs) + list(self.us)
        arg = _coef(self.rng, 0.3, 1.2) * v[int(self.rng.integers(len(v)))]
        if self.rng.random() < 0.5:
            arg = arg + _coef(self.rng, 0.3, 1.2) * v[int(self.rng.integers(len(v)))]
        if self.time_dep and self.rng.random() < 0.7:
            arg = arg + _q(self.rng.uniform(0.1, 0.9)) * self.t
        arg = arg + _q(self.rng.uniform(-1, 1), 100)
        return sp.sin(arg) if self.rng.random() < 0.5 else sp.cos(arg)

    def _leaf(self):
        r = self.rng.random()
        v = list(self.xs) + list(self.us)
        if self.time_dep and r < 0.22:
            k = self.rng.integers(3)
            w, ph = _q(self.rng.uniform(0.1, 0.9)), _q(self.rng.uniform(0, 3), 100)
            return (sp.sin(w * self.t + ph), sp.cos(w * self.t + ph), self.t / 16)[k]
        if r < 0.30:
            return _coef(self.rng)
        return v[int(self.rng.integers(len(v)))]

    def _tree(self, d):
        if d <= 0 or self.rng.random() < 0.2:
            return self._leaf()
        k = self.rng.choice(["add", "mul", "mul", "sin", "cos", "sq", "cube", "scale"])
        if k == "add":
            return _coef(self.rng) * self._tree(d - 1) + _coef(self.rng) * self._tree(d - 1)
        if k == "mul":
            return self._tree(d - 1) * self._tree(d - 1)
        if k == "sin":
            return sp.sin(_coef(self.rng) * self._tree(d - 1) + _q(self.rng.uniform(-1, 1), 100))
        if k == "cos":
            return sp.cos(_coef(self.rng) * self._tree(d - 1) + _q(self.rng.uniform(-1, 1), 100))
        if k == "sq":
            return self._tree(d - 1) ** 2
        if k == "cube":
            return self._leaf() ** 3
        return _coef(self.rng) * self._tree(d - 1)

    def _output(self, depth):
        v = list(self.xs) + list(self.us)
        e = sum(_coef(self.rng) * self._tree(depth) for _ in range(2))
        e = e + sum(_coef(self.rng, 0.1, 0.9) * s for s in v if self.rng.random() < 0.5)
        return e

    # -- compilation -------------------------------------------------------------------
    def _compile(self):
        args = tuple(self.xs) + tuple(self.us) + (self.t,)
        F, G = sp.Matrix(self.f), sp.Matrix(self.g)
        X, U = sp.Matrix(self.xs), sp.Matrix(self.us)
        J = {"A": F.jacobian(X), "B": F.jacobian(U), "C": G.jacobian(X), "D": G.jacobian(U)}
        tmods = [{"sin": _tsin, "cos": _tcos}]
        self.f_torch = sp.lambdify(args, list(self.f), modules=tmods)
        self.g_torch = sp.lambdify(args, list(self.g), modules=tmods)
        self._f_np = sp.lambdify(args, list(self.f), modules="numpy")
        self._g_np = sp.lambdify(args, list(self.g), modules="numpy")
        self._J_np = {k: sp.lambdify(args, M.tolist(), modules="numpy") for k, M in J.items()}
        self._fm_np = sp.lambdify(args, [_magnitude(e) for e in self.f], modules="numpy")
        self._gm_np = sp.lambdify(args, [_magnitude(e) for e in self.g], modules="numpy")
        self._Jm_np = {k: sp.lambdify(args, [[_magnitude(e) for e in row] for row in M.tolist()], modules="numpy")
                       for k, M in J.items()}
        self.nonlinear = any(not sp.diff(e, a, b).is_zero for e in self.f for a in args[:-1] for b in args[:-1])

    @staticmethod
    def _vec(v):
        return np.array([float(c) for c in v], dtype=np.float64)

    @staticmethod
    def _mat(v, shape):
        return np.array([[float(c) for c in r] for r in v], dtype=np.float64).reshape(shape)

    def _a(self, x, u, t):
        return tuple(float(v) for v in np.asarray(x, dtype=np.float64).reshape(-1)) + \
            tuple(float(v) for v in np.asarray(u, dtype=np.float64).reshape(-1)) + (float(t),)

    def _abs(self, x, u, t):
        return self._a(np.abs(np.asarray(x, dtype=np.float64)), np.abs(np.asarray(u, dtype=np.float64)), abs(float(t)))

    def f_ref(self, x, u, t):
        return self._vec(self._f_np(*self._a(x, u, t)))

    def g_ref(self, x, u, t):
        return self._vec(self._g_np(*self._a(x, u, t)))

    def f_mag(self, x, u, t):
        return self._vec(self._fm_np(*self._abs(x, u, t)))

    def g_mag(self, x, u, t):
        return self._vec(self._gm_np(*self._abs(x, u, t)))

    def jac_ref(self, which, x, u, t):
        shp = {"A": (self.n, self.n), "B": (self.n, self.m), "C": (self.q, self.n), "D": (self.q, self.m)}[which]
        return self._mat(self._J_np[which](*self._a(x, u, t)), shp)

    def jac_mag(self, which, x, u, t):
        shp = {"A": (self.n, self.n), "B": (self.n, self.m), "C": (self.q, self.n), "D": (self.q, self.m)}[which]
        return self._mat(self._Jm_np[which](*self._abs(x, u, t)), shp)

    def describe(self):
        return {"f": [str(e) for e in self.f], "g": [str(e) for e in self.g]}


def nls_subclass(base):
    """The user-side model: a subclass of `base` (the library's NLS class, passed in by the
    check) whose transition/observation evaluate the torch-compiled expressions of a
    SmoothSystem.  Works for states of shape (n,) and for the batch-of-one layout (1, n)."""

    class GenNLS(base):
        def __init__(self, ref):
            super().__init__()
            self.ref = ref

        def _eval(self, fn, state, input, t):
            tt = torch.as_tensor(t).reshape(()).to(state.dtype)
            xs = [state[..., i] for i in range(self.ref.n)]
            us = [input[..., j] for j in range(self.ref.m)]
            z = state[..., 0] * 0
            return torch.stack([o + z for o in fn(*xs, *us, tt)], dim=-1)

        def state_transition(self, state, input, t=None):
            return self._eval(self.ref.f_torch, state, input, t)

        def observation(self, state, input, t=None):
            return self._eval(self.ref.g_torch, state, input, t)

    return GenNLS


# --------------------------------------------------------------------------- cart-pole
def cartpole_ref(x, u, tau, length, cartmass, polemass, gravity):
    """One explicit-Euler step of the cart-pole of tests/module/test_mpc.py, written
    separately in numpy float64.  Returns (next_state (4,), round-off magnitude (4,))."""
    x = np.asarray(x, dtype=np.float64).reshape(4)
    f = float(np.asarray(u, dtype=np.float64).reshape(-1)[0])
    pos, vel, th, om = x
    M = cartmass + polemass
    ml = polemass * length
    c, s = np.cos(th), np.sin(th)
    temp = (f + ml * om * om * s) / M
    den = length * (4.0 / 3.0 - polemass * c * c / M)
    thacc = (gravity * s - c * temp) / den
    xacc = temp - ml * thacc * c / M
    nxt = x + tau * np.array([vel, xacc, om, thacc])
    tm = (abs(f) + ml * om * om) / M
    tham = (gravity + tm) / abs(den) * (1 + (4.0 / 3.0 + polemass / M) * length / abs(den))
    xam = tm + ml * tham / M
    mag = np.abs(x) + tau * np.array([abs(vel), xam, abs(om), tham])
    return nxt, mag * (1 + abs(th))
